"""C16 - serialisation well-formed, escaping-safe, deterministic and side-effect free: sink discipline, fresh tree per
call, purity of to_string(intelligent_choice=False), subtree independence."""
import ast

from ..astutil import unparse, short, walk_local, dotted, const_value
from ..cfg import cfg_of
from ..srcmodel import AnalysisError
from ..rules import tables as T
from ..rules import dom
from ..rules import state
from ..engine import get_cg, get_effects
from ..effects import specialised_writes
from . import c04


def run(ctx):
    sm, res = ctx.sm, ctx.res
    res.assume("xml.etree.ElementTree escapes text and attribute values correctly and produces well-formed output for the tree it is given")
    res.assume("the requirement flags recomputed by every final check are derived state (rules/state.py); a later result does not depend on their previous value")
    res.assume("to_string(intelligent_choice=True) is documented to restructure the matcher and is not covered by the purity rule")
    sink_discipline(ctx)
    fresh_tree(ctx)
    purity(ctx)
    subtree_independence(ctx)


def sink_discipline(ctx):
    sm, res = ctx.sm, ctx.res
    cg = get_cg(ctx)
    res.rule('R-SINK', "the returned string is ET.tostring(<Element>, encoding='unicode') plus constants; the element tree is built only with ET.Element(name, dict), "
             ".text = str(value), .append(child element) and ET.indent; no markup is assembled from strings")
    ts = sm.func('XMLElement', 'to_string', T.M_XMLELEMENT)
    rets = [n for n in ast.walk(ts.node) if isinstance(n, ast.Return)]
    ok = len(rets) == 1
    detail = '; '.join(short(r) for r in rets)
    if ok:
        v = rets[0].value
        parts = []

        def flat(e):
            if isinstance(e, ast.BinOp) and isinstance(e.op, ast.Add):
                flat(e.left)
                flat(e.right)
            else:
                parts.append(e)
        flat(v)
        calls = [p for p in parts if isinstance(p, ast.Call)]
        consts = [p for p in parts if isinstance(p, ast.Constant)]
        ok = len(calls) == 1 and dotted(calls[0].func) == 'ET.tostring' and len(calls) + len(consts) == len(parts) and \
            all(isinstance(c.value, str) and c.value.strip() == '' for c in consts)
        if ok:
            c = calls[0]
            kw = {k.arg: const_value(k.value) for k in c.keywords}
            ok = kw.get('encoding') == 'unicode' and len(c.args) == 1 and unparse(c.args[0]) in ('self.et_xml_element', 'self._et_xml_element')
            # no method / xml_declaration tricks
            ok = ok and set(kw) <= {'encoding'}
    res.check(ok, 'R-SINK', ts.fq, "return ET.tostring(self.et_xml_element, encoding='unicode') + whitespace constant", fail_detail=detail, key='R-SINK|to_string')
    # markup-looking string constants in the serialisation closure
    closure_names = ('to_string', '_create_et_xml_element', 'et_xml_element')
    for name in closure_names:
        f = sm.func('XMLElement', name, T.M_XMLELEMENT)
        doc = ast.get_docstring(f.node, clean=False)
        bad = []
        for n in ast.walk(f.node):
            if isinstance(n, ast.Constant) and isinstance(n.value, str) and n.value != doc and ('<' in n.value or '>' in n.value or '&' in n.value):
                bad.append(n.value)
        res.check(not bad, 'R-SINK', f.fq, "no markup fragment is written as a string constant", fail_detail=str(bad[:2]), key=f"R-SINK|markup|{name}")
    ce = sm.func('XMLElement', '_create_et_xml_element', T.M_XMLELEMENT)
    # every ET-related call in the builder is one of the allowed constructors
    allowed = {'ET.Element', 'ET.indent'}
    for c in [x for x in ast.walk(ce.node) if isinstance(x, ast.Call)]:
        d = dotted(c.func) or ''
        if d.startswith('ET.'):
            res.check(d in allowed, 'R-SINK', ce.fq, f"`{short(c, 60)}` is an allowed ElementTree construction", key=f"R-SINK|et-call|{d}")
    c04.verbatim_serialisation(ctx)
    texts = [n for n in ast.walk(ce.node) if isinstance(n, ast.Assign) and unparse(n.targets[0]).endswith('.text')]
    res.check(len(texts) == 1 and unparse(texts[0].value) in ('str(self.value_)', 'str(self._value)'), 'R-SINK', ce.fq,
              "the element text is str() of the value, unmodified (escaping is ElementTree's)", fail_detail='; '.join(short(t) for t in texts), key='R-SINK|text')
    g = cfg_of(ce.node)
    for t in texts:
        n = g.node_of_stmt.get(t)
        guards = [(unparse(x.ast), lab) for x, lab in dom.guards_of(g, n) if x.kind == 'test'] if n else []
        res.check(guards in ([('self.value_ is None', 'F')], [('self._value is None', 'F')]), 'R-SINK', ce.fq,
                  "text is set exactly when a value is present", fail_detail=str(guards), key='R-SINK|text-guard')
    # write adds one constant declaration (C17 checks the details)


def fresh_tree(ctx):
    sm, res = ctx.sm, ctx.res
    res.rule('R-FRESH.tree', "every serialisation builds a new ElementTree element: the construction dominates every mutation of it, and child elements are obtained "
             "through a call that rebuilds them (no cached element is appended or indented twice)")
    ce = sm.func('XMLElement', '_create_et_xml_element', T.M_XMLELEMENT)
    g = cfg_of(ce.node)
    ctor = [n for n in g.stmt_nodes() if n.kind == 'stmt' and isinstance(n.ast, ast.Assign) and unparse(n.ast.targets[0]) == 'self._et_xml_element'
            and isinstance(n.ast.value, ast.Call) and dotted(n.ast.value.func) == 'ET.Element']
    if not res.check(len(ctor) == 1, 'R-FRESH.tree', ce.fq, "self._et_xml_element = ET.Element(...) exists once", key='R-FRESH.tree|ctor'):
        return
    uses = dom.nodes_with(g, lambda x: isinstance(x, ast.Attribute) and unparse(x) == 'self._et_xml_element' and isinstance(x.ctx, ast.Load))
    res.check(all(g.path_avoiding(g.entry, u, avoid=ctor) is None for u in uses), 'R-FRESH.tree', ce.fq,
              "the fresh element dominates every use of self._et_xml_element in the builder", key='R-FRESH.tree|dominates')
    res.check(g.path_avoiding(g.entry, g.exit, avoid=ctor) is None, 'R-FRESH.tree', ce.fq, "no path of the builder keeps an element of an earlier call",
              key='R-FRESH.tree|every-path')
    # the property rebuilds on every read
    prop = sm.func('XMLElement', 'et_xml_element', T.M_XMLELEMENT)
    g2 = cfg_of(prop.node)
    rebuild = dom.nodes_calling(g2, lambda c: unparse(c.func) == 'self._create_et_xml_element')
    res.check(bool(rebuild) and g2.path_avoiding(g2.entry, g2.exit, avoid=rebuild) is None, 'R-FRESH.tree', prop.fq,
              "et_xml_element rebuilds the element on every access (no memoisation that mutations could outdate)",
              fail_detail="a path returns without calling _create_et_xml_element()", key='R-FRESH.tree|property-rebuilds')
    # children come from the rebuilding property
    appends = [c for c in ast.walk(ce.node) if isinstance(c, ast.Call) and isinstance(c.func, ast.Attribute) and c.func.attr == 'append'
               and unparse(c.func.value) == 'self._et_xml_element']
    res.check(bool(appends) and all(len(c.args) == 1 and isinstance(c.args[0], ast.Attribute) and c.args[0].attr == 'et_xml_element' for c in appends),
              'R-FRESH.tree', ce.fq, "child elements are taken from child.et_xml_element (rebuilt), never from a cached field",
              fail_detail='; '.join(short(c) for c in appends), key='R-FRESH.tree|children')
    # to_string serialises what it has just built
    ts = sm.func('XMLElement', 'to_string', T.M_XMLELEMENT)
    g3 = cfg_of(ts.node)
    sinks = dom.nodes_calling(g3, lambda c: dotted(c.func) == 'ET.tostring')
    builds = dom.nodes_with(g3, lambda x: (isinstance(x, ast.Call) and unparse(x.func) == 'self._create_et_xml_element') or
                            (isinstance(x, ast.Attribute) and unparse(x) == 'self.et_xml_element'))
    res.check(all(g3.path_avoiding(g3.entry, s, avoid=[b for b in builds if b is not s]) is None or s in builds for s in sinks), 'R-FRESH.tree', ts.fq,
              "to_string serialises an element built during the same call", key='R-FRESH.tree|to_string')


def purity(ctx):
    sm, res = ctx.sm, ctx.res
    ef = get_effects(ctx)
    res.rule('R-EFF.pure', "with intelligent_choice=False (propagated as a constant through _final_checks -> get_required_element_names -> check_required_elements) "
             "the call closure of to_string() writes no primary state of an existing object")
    ts = sm.func('XMLElement', 'to_string', T.M_XMLELEMENT)
    ws = specialised_writes(ef, ts, 'intelligent_choice', False)
    n = 0
    bad = {}
    cats = {}
    for root, field, origin in ws:
        owners = origin.owners if origin is not None else ()
        kind = state.classify(owners, field)
        cats[kind] = cats.get(kind, 0) + 1
        n += 1
        if kind == 'primary':
            bad.setdefault((tuple(sorted(owners)), field), origin)
    for (owners, field), origin in sorted(bad.items(), key=str):
        res.finding('R-EFF.pure', ts.fq, f"to_string() does not write {'/'.join(owners) or '?'}.{field}",
                    f"written by {origin.func.qualname}: `{short(origin.node, 70)}`" if origin else '', key=f"R-EFF.pure|{'/'.join(owners)}.{field}",
                    line=getattr(origin.node, 'lineno', None) if origin else None)
    if not bad:
        res.ok('R-EFF.pure', ts.fq, f"{n} write effects in the specialised closure: none touches primary state", str(cats))
    res.extra['to_string_write_effects'] = cats
    res.floor('R-EFF.pure write effects examined', n, 5)
    # plain to_string() / write(path) must be the non-restructuring mode: every default along the chain is False
    chain = [sm.func('XMLElement', 'to_string', T.M_XMLELEMENT), sm.func('XMLElement', '_final_checks', T.M_XMLELEMENT),
             sm.func('XMLScorePartwise', 'write', T.M_XMLELEMENT), sm.func('XMLChildContainer', 'get_required_element_names', T.M_CONTAINER),
             sm.func('XMLChildContainer', 'check_required_elements', T.M_CONTAINER)]
    for fn in chain:
        a = fn.node.args
        names = [x.arg for x in a.posonlyargs + a.args]
        d = None
        if 'intelligent_choice' in names:
            i = names.index('intelligent_choice') - (len(names) - len(a.defaults))
            d = a.defaults[i] if 0 <= i < len(a.defaults) else None
        res.check(isinstance(d, ast.Constant) and d.value is False, 'R-EFF.pure', fn.fq, "intelligent_choice defaults to False (a plain call does not restructure)",
                  fail_detail=f"default: {unparse(d) if d is not None else 'none'}", key=f"R-EFF.pure|default|{fn.qualname}")
    # the same closure with intelligent_choice=True must reach the restructuring (sanity of the specialisation)
    ws_true = specialised_writes(ef, ts, 'intelligent_choice', True)
    prim_true = [1 for r, f_, o in ws_true if state.classify(o.owners if o else (), f_) == 'primary']
    res.check(bool(prim_true), 'R-EFF.pure', ts.fq, "positive control: with intelligent_choice=True the same analysis does see the matcher being restructured",
              key='R-EFF.pure|positive-control')


def subtree_independence(ctx):
    sm, res = ctx.sm, ctx.res
    res.rule('R-INDEP', "the only parent-dependent input of the element builder is get_level(), used as the level of ET.indent")
    ce = sm.func('XMLElement', '_create_et_xml_element', T.M_XMLELEMENT)
    parent_reads = []
    for n in ast.walk(ce.node):
        if isinstance(n, ast.Attribute) and n.attr in ('_parent', 'up', 'parent', 'next', 'previous', 'is_last_child', 'is_first_child'):
            parent_reads.append(n)
        if isinstance(n, ast.Call) and isinstance(n.func, ast.Attribute) and n.func.attr in ('get_parent', 'get_root', 'get_level', 'get_position_in_tree',
                                                                                               'get_reversed_path_to_root', 'get_distance'):
            parent_reads.append(n)
    ok = True
    # the level counted by hand: a walk `p = self.get_parent(); while p is not None: n += 1; p = p.get_parent()` whose only product is the counter
    # that ET.indent receives as its level
    walkers = {t.id for a in ast.walk(ce.node) if isinstance(a, ast.Assign) and isinstance(a.value, ast.Call) and isinstance(a.value.func, ast.Attribute) and
               a.value.func.attr == 'get_parent' and not a.value.args for t in a.targets if isinstance(t, ast.Name)}
    counters = {a.target.id for a in ast.walk(ce.node) if isinstance(a, ast.AugAssign) and isinstance(a.target, ast.Name) and isinstance(a.op, ast.Add) and
                isinstance(a.value, ast.Constant) and a.value.value == 1}
    walk_ok = bool(walkers) and bool(counters)
    for w in walkers:
        for n in ast.walk(ce.node):
            if isinstance(n, ast.Name) and n.id == w and isinstance(n.ctx, ast.Load):
                par = next((x for x in ast.walk(ce.node) if any(c is n for c in ast.iter_child_nodes(x))), None)
                fine = isinstance(par, ast.Compare) and all(isinstance(o, (ast.Is, ast.IsNot)) for o in par.ops) or isinstance(par, ast.While) or \
                    isinstance(par, ast.Attribute) and par.attr == 'get_parent' or isinstance(par, (ast.UnaryOp, ast.BoolOp))
                walk_ok = walk_ok and fine
    for cnt in counters:
        for n in ast.walk(ce.node):
            if isinstance(n, ast.Name) and n.id == cnt and isinstance(n.ctx, ast.Load):
                par = next((x for x in ast.walk(ce.node) if any(c is n for c in ast.iter_child_nodes(x))), None)
                walk_ok = walk_ok and (isinstance(par, ast.keyword) and par.arg == 'level' or isinstance(par, ast.AugAssign))
    for p in parent_reads:
        if walk_ok and isinstance(p, ast.Call) and p.func.attr == 'get_parent' and (unparse(p.func.value) == 'self' or unparse(p.func.value) in walkers):
            continue
        if isinstance(p, ast.Call) and p.func.attr == 'get_level':
            # must be the level= argument of ET.indent
            inside = False
            for c in ast.walk(ce.node):
                if isinstance(c, ast.Call) and dotted(c.func) == 'ET.indent' and any(k.arg == 'level' and k.value is p for k in c.keywords):
                    inside = True
            ok = ok and inside
        else:
            ok = False
    res.check(ok and any(isinstance(p, ast.Call) for p in parent_reads), 'R-INDEP', ce.fq, "parent-dependent reads: only get_level() as ET.indent's level",
              fail_detail='; '.join(short(p) for p in parent_reads), key='R-INDEP|parent-reads')
