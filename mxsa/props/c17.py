"""C17 - write() is all-or-nothing; file I/O does not depend on the process locale (R-DOM ordering, encoding discipline)."""
import ast

from ..astutil import unparse, short, dotted, const_value, get_kw, walk_local, names_in
from ..cfg import cfg_of
from ..rules import dom
from ..srcmodel import AnalysisError
from ..rules import tables as T
from ..engine import get_cg

OPENERS = {'open', 'io.open', 'codecs.open'}
PATH_METHODS = {'open', 'read_text', 'write_text', 'read_bytes', 'write_bytes'}


def _open_calls(tree):
    """(call, kind) for every file-opening call below tree."""
    out = []
    for n in ast.walk(tree):
        if not isinstance(n, ast.Call):
            continue
        d = dotted(n.func)
        if d in OPENERS:
            out.append((n, 'open'))
        elif isinstance(n.func, ast.Attribute) and n.func.attr in PATH_METHODS and d not in OPENERS:
            # Path(...).open / read_text / write_text - only when the receiver is path-like by name
            base = unparse(n.func.value)
            if 'path' in base.lower() or 'Path(' in base:
                out.append((n, 'path.' + n.func.attr))
    return out


def _mode_of(call: ast.Call, kind: str):
    if kind == 'open':
        m = call.args[1] if len(call.args) > 1 else get_kw(call, 'mode')
        if m is None:
            return 'r'
        return const_value(m)
    if kind == 'path.open':
        m = call.args[0] if call.args else get_kw(call, 'mode')
        return 'r' if m is None else const_value(m)
    return {'path.read_text': 'r', 'path.write_text': 'w', 'path.read_bytes': 'rb', 'path.write_bytes': 'wb'}[kind]


def _encoding_of(call: ast.Call, kind: str):
    e = get_kw(call, 'encoding')
    if e is None and kind == 'open' and len(call.args) > 3:
        e = call.args[3]
    if e is None and kind in ('path.read_text',) and call.args:
        e = call.args[0]
    return e


def _norm_enc(s):
    return s.lower().replace('-', '').replace('_', '') if isinstance(s, str) else None


def run(ctx):
    sm, res = ctx.sm, ctx.res
    res.rule('R-DOM.open-after-validate', "in a function that opens a file for writing, everything that can raise a validation or "
             "serialisation error is evaluated before the open; after it only constants and already computed values are written")
    res.rule('R-ENC', "every file-opening call in the runtime closure is binary or names its encoding; write() uses the encoding "
             "its XML declaration names")
    res.assume("partial writes caused by the operating system after the document text exists are outside the statement")

    # ---------------------------------------------------------------- encoding discipline over the whole closure
    n_open = 0
    for m in sm.modules.values():
        if not m.name.startswith('musicxml'):
            continue
        fn_of = {}
        for f in sm.functions:
            if f.module is m:
                for n in ast.walk(f.node):
                    fn_of.setdefault(n, f)
        for call, kind in _open_calls(m.tree):
            n_open += 1
            owner = fn_of.get(call)
            where = owner.fq if owner else f"{m.relpath}::<module>"
            mode = _mode_of(call, kind)
            enc = _encoding_of(call, kind)
            if not isinstance(mode, str):
                res.finding('R-ENC', where, f"{short(call)}: mode is a literal", "mode is not a constant: binary/text cannot be decided",
                            key=f"R-ENC|mode|{where}|{short(call, 60)}", line=call.lineno)
                continue
            binary = 'b' in mode
            ok = binary or (enc is not None and isinstance(const_value(enc), str))
            if not ok and enc is not None and isinstance(enc, ast.Name) and owner is not None and enc.id in owner.params:
                # the encoding is the caller's own argument, and the call is taken only when that argument was given (`<p> is None` is false on every path
                # to it): the locale still decides nothing
                g_ = cfg_of(owner.node)
                n_ = next((x for x in g_.stmt_nodes() if any(y is call for e_ in x.exprs() for y in ast.walk(e_))), None)
                if n_ is not None and any(t.kind == 'test' and lab == 'F' and unparse(t.ast) == f"{enc.id} is None" for t, lab in dom.guards_of(g_, n_)):
                    ok = True
            res.check(ok, 'R-ENC', where, f"{short(call)}: binary mode or explicit encoding",
                      fail_detail="text mode without encoding=: the process locale decides how the bytes are decoded/encoded",
                      key=f"R-ENC|locale|{where}", line=call.lineno)
    res.floor('R-ENC open() sites', n_open, 5)
    # other locale-dependent calls
    for f in sm.functions:
        if not f.module.name.startswith('musicxml'):
            continue
        for n in walk_local(f.node, include_root=False):
            if isinstance(n, ast.Call):
                d = dotted(n.func) or ''
                if d.startswith('locale.') or d in ('sys.getdefaultencoding', 'sys.getfilesystemencoding'):
                    res.finding('R-ENC', f.fq, f"{short(n)}: no locale query in the runtime closure", key=f"R-ENC|locale-query|{f.fq}|{d}",
                                line=n.lineno)

    # ---------------------------------------------------------------- write(): ordering
    w = sm.func('XMLScorePartwise', 'write', T.M_XMLELEMENT)
    cg = get_cg(ctx)
    risky = _risky_functions(ctx, cg)
    writers = [f for f in sm.functions if f.module.name.startswith('musicxml') and
               any(isinstance(_mode_of(c, k), str) and set(_mode_of(c, k)) & set('wax+') for c, k in _open_calls(f.node)
                   if _owner_is(f, c))]
    if w not in writers:
        res.finding('R-DOM.open-after-validate', w.fq, "write() opens its destination itself", "no writing open() found in write()",
                    key='R-DOM.open-after-validate|no-open|write')
    for f in writers:
        _check_writer(ctx, cg, f, risky, is_write=(f is w))
    res.floor('R-DOM.open-after-validate writers', len(writers), 1)


def _owner_is(f, call):
    for n in walk_local(f.node, include_root=False):
        if n is call:
            return True
    return False


def _risky_functions(ctx, cg):
    """Functions whose execution can raise a validation/serialisation error: anything whose call closure contains the
    final checks, the ET element construction, or a call of ET.tostring/ET.indent."""
    sm = ctx.sm
    seeds = set()
    for f in sm.functions:
        if f.cls is not None and f.cls.name == 'XMLElement' and f.name in ('_final_checks', '_create_et_xml_element', 'to_string',
                                                                             '_check_required_attributes', '_check_required_value'):
            seeds.add(f)
        for x in cg.ext.get(f, []):
            if x.name in ('ET.tostring', 'ET.indent', 'ET.ElementTree', 'ET.dump'):
                seeds.add(f)
    # reverse closure
    risky = set(seeds)
    changed = True
    while changed:
        changed = False
        for e in cg.edges:
            if e.callee in risky and e.caller not in risky:
                risky.add(e.caller)
                changed = True
    return risky


def _check_writer(ctx, cg, f, risky, is_write):
    res = ctx.res
    g = cfg_of(f.node)
    opens = []
    for n in g.stmt_nodes():
        for e in n.exprs():
            for c, k in _open_calls(e):
                mode = _mode_of(c, k)
                if isinstance(mode, str) and set(mode) & set('wax+'):
                    opens.append((n, c, k))
    for onode, call, kind in opens:
        after = g.reachable(onode) - {onode, g.exit, g.raise_exit}
        bad = []
        computed_before = set()
        # names assigned on every path before the open
        for n in g.stmt_nodes():
            if n.kind == 'stmt' and isinstance(n.ast, ast.Assign) and g.dominates(n, onode) and n not in after:
                for t in n.ast.targets:
                    if isinstance(t, ast.Name):
                        computed_before.add(t.id)
        file_vars = set()
        if onode.kind == 'with':
            for i in onode.stmt.items:
                if i.optional_vars is not None and isinstance(i.optional_vars, ast.Name):
                    file_vars.add(i.optional_vars.id)
        writes = []
        for n in sorted(after, key=lambda x: x.id):
            for e in n.exprs():
                for sub in walk_local(e):
                    edges = cg.by_node.get(sub, [])
                    hit = [ed for ed in edges if ed.callee in risky]
                    if hit:
                        bad.append((n, sub, hit[0].callee.qualname))
                    if isinstance(sub, ast.Call):
                        d = dotted(sub.func) or ''
                        if d in ('ET.tostring', 'ET.indent', 'ET.ElementTree', 'ET.dump'):
                            bad.append((n, sub, d))
                        if isinstance(sub.func, ast.Attribute) and sub.func.attr == 'write' and unparse(sub.func.value) in file_vars:
                            writes.append((n, sub))
                        elif d not in ('',) and not (isinstance(sub.func, ast.Attribute) and unparse(sub.func.value) in file_vars) \
                                and not edges and d not in ('print',):
                            # an unresolved/external call after the open that is not a write to the file
                            if d.split('.')[0] not in ('str', 'len'):
                                bad.append((n, sub, f"external call {d}"))
        res.check(not bad, 'R-DOM.open-after-validate', f.fq,
                  f"nothing that can fail validation/serialisation runs after {short(call)}",
                  fail_detail='; '.join(f"line {n.line}: {short(s, 70)} (reaches {why})" for n, s, why in bad[:4]),
                  key=f"R-DOM.open-after-validate|{f.qualname}", line=call.lineno)
        for n, wc in writes:
            arg = wc.args[0] if wc.args else None
            ok = isinstance(arg, ast.Constant) or (isinstance(arg, ast.Name) and arg.id in computed_before)
            res.check(ok, 'R-DOM.open-after-validate', f.fq, f"{short(wc)} writes a constant or a value computed before the open",
                      key=f"R-DOM.open-after-validate|write-arg|{f.qualname}|{short(arg, 40)}", line=wc.lineno)
        if is_write:
            # the file is filled by something other than file.write(<constant | name>): what ends up in it is not tabulated by this check
            other_forms = [short(sub, 50) for n in after for e in n.exprs() for sub in walk_local(e)
                           if isinstance(sub, ast.Call) and isinstance(sub.func, ast.Attribute) and unparse(sub.func.value) in file_vars and sub.func.attr != 'write']
            other_forms += [short(sub, 50) for n in after for e in n.exprs() for sub in walk_local(e)
                            if isinstance(sub, ast.Call) and dotted(sub.func) == 'print' and any(k.arg == 'file' for k in sub.keywords)]
            if other_forms:
                if not bad:
                    raise AnalysisError(f"{f.fq}: the file is written by `{other_forms[0]}` (not by file.write of a constant or a name): the contents are not "
                                        "tabulated (idiom not understood)")
                continue
            _check_write_contents(ctx, f, g, onode, call, kind, writes, computed_before)


def _check_write_contents(ctx, f, g, onode, call, kind, writes, computed_before):
    res = ctx.res
    # the declaration and its encoding
    consts = [wc.args[0].value for _, wc in writes if wc.args and isinstance(wc.args[0], ast.Constant) and isinstance(wc.args[0].value, str)]
    decl = [c for c in consts if c.lstrip().startswith('<?xml')]
    res.check(len(decl) == 1 and consts and consts[0] is decl[0], 'R-ENC', f.fq, "the first thing written is one XML declaration",
              fail_detail=f"constants written: {consts}", key='R-ENC|declaration')
    declared = None
    if decl:
        import re
        m = re.search(r'encoding="([^"]+)"', decl[0])
        declared = m.group(1) if m else 'UTF-8'
    enc = _encoding_of(call, kind)
    got = const_value(enc) if enc is not None else None
    res.check(got is not None and _norm_enc(got) == _norm_enc(declared), 'R-ENC', f.fq,
              f"the file is encoded in the encoding the declaration names ({declared})", fail_detail=f"open(... encoding={got!r})",
              key='R-ENC|declared-encoding', line=call.lineno)
    # the document text is exactly self.to_string(intelligent_choice=intelligent_choice)
    names = [wc.args[0].id for _, wc in writes if wc.args and isinstance(wc.args[0], ast.Name)]
    ok = False
    detail = f"variables written: {names}"
    if len(names) == 1 and len(writes) == 2:
        defs = [n.ast for n in g.stmt_nodes() if n.kind == 'stmt' and isinstance(n.ast, ast.Assign) and
                any(isinstance(t, ast.Name) and t.id == names[0] for t in n.ast.targets)]
        if len(defs) == 1 and isinstance(defs[0].value, ast.Call):
            c = defs[0].value
            kw = {k.arg: unparse(k.value) for k in c.keywords}
            params = f.params
            ok = unparse(c.func) == 'self.to_string' and (kw.get('intelligent_choice') == 'intelligent_choice' or
                                                           (len(c.args) == 1 and unparse(c.args[0]) == 'intelligent_choice')) \
                and 'intelligent_choice' in params
            detail = f"{names[0]} = {short(c)}"
    res.check(ok, 'R-DOM.open-after-validate', f.fq, "the file receives the declaration followed by exactly self.to_string(intelligent_choice=...)",
              fail_detail=detail, key='R-DOM.open-after-validate|content')
