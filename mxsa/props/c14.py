"""C14 - deep copies are faithful and independent (R-COPY on XMLElement.__deepcopy__)."""
import ast

from ..astutil import unparse, short, dotted, walk_local, get_kw
from ..cfg import cfg_of
from ..srcmodel import AnalysisError
from ..rules import tables as T
from ..engine import get_cg, get_effects

FRESH_COPY_CALLS = ('copy.deepcopy', 'copy.copy', 'dict')


def _is_fresh_copy_of(expr, sources) -> bool:
    """expr is a fresh container built from one of `sources` (normalised texts such as 'self._attributes')."""
    if isinstance(expr, ast.Call):
        d = dotted(expr.func) or ''
        if d in FRESH_COPY_CALLS and expr.args and unparse(expr.args[0]) in sources:
            return True
        if isinstance(expr.func, ast.Attribute) and expr.func.attr == 'copy' and unparse(expr.func.value) in sources and not expr.args:
            return True
    if isinstance(expr, ast.Dict) and len(expr.keys) == 1 and expr.keys[0] is None and unparse(expr.values[0]) in sources:
        return True
    if isinstance(expr, ast.DictComp):
        return len(expr.generators) == 1 and unparse(expr.generators[0].iter).split('.items')[0] in sources
    return False


def run(ctx):
    sm, res = ctx.sm, ctx.res
    f = sm.func('XMLElement', '__deepcopy__', T.M_XMLELEMENT)
    cg = get_cg(ctx)
    ef = get_effects(ctx)
    res.rule('R-COPY.complete', "every serialisation-relevant field of the source (value, xsd_check, current attributes, all children) "
             "flows into the copy")
    res.rule('R-COPY.pure', "the copy routine does not write the source")
    res.rule('R-COPY.fresh', "every mutable field of the copy is a freshly allocated object, never the source's")
    res.assume("re-adding the deep-copied children in schema order is accepted by the matcher (that is C02)")

    g = cfg_of(f.node)
    # the constructor call
    ctor = None
    copy_var = None
    for n in g.stmt_nodes():
        if n.kind == 'stmt' and isinstance(n.ast, ast.Assign) and isinstance(n.ast.value, ast.Call):
            fn = unparse(n.ast.value.func)
            if fn in ('self.__class__', 'type(self)') and len(n.ast.targets) == 1 and isinstance(n.ast.targets[0], ast.Name):
                ctor, copy_var = (n, n.ast.value), n.ast.targets[0].id
    if ctor is None:
        res.finding('R-COPY.complete', f.fq, "the copy is an instance of the source's own class built in __deepcopy__",
                    "no `x = self.__class__(...)` found", key='R-COPY.complete|ctor')
        return
    cnode, call = ctor
    kws = {k.arg: unparse(k.value) for k in call.keywords if k.arg}
    star = [unparse(k.value) for k in call.keywords if k.arg is None]
    res.check(kws.get('value_') in ('self.value_', 'self._value'), 'R-COPY.complete', f.fq, "value: constructor receives the current value",
              fail_detail=f"value_={kws.get('value_')}", key='R-COPY.complete|value', line=call.lineno)
    res.check(kws.get('xsd_check') in ('self.xsd_check', 'self._xsd_check'), 'R-COPY.complete', f.fq,
              "xsd_check: constructor receives the current setting (not the construction-time one)",
              fail_detail=f"xsd_check={kws.get('xsd_check')}; **{star}", key='R-COPY.complete|xsd_check', line=call.lineno)
    # the constructor call must be unconditional and return that object
    res.check(g.dominates(cnode, g.exit) or all(g.dominates(cnode, p) for p, _ in g.pred[g.exit]), 'R-COPY.complete', f.fq,
              "the copy is constructed on every path", key='R-COPY.complete|ctor-dominates')
    rets = [n for n in g.stmt_nodes() if n.kind == 'return']
    res.check(bool(rets) and all(isinstance(r.ast.value, ast.Name) and r.ast.value.id == copy_var for r in rets), 'R-COPY.complete', f.fq,
              "the constructed copy is what is returned", key='R-COPY.complete|return')
    # attributes
    attr_sources = {'self._attributes', 'self.attributes'}
    attr_stores = []
    for n in g.stmt_nodes():
        if n.kind == 'stmt' and isinstance(n.ast, ast.Assign):
            for t in n.ast.targets:
                if isinstance(t, ast.Attribute) and unparse(t.value) == copy_var and t.attr == '_attributes':
                    attr_stores.append((n, n.ast.value))
    # every path to a return passes one of the stores (one store that dominates, or one per branch), and each of them is a fresh copy
    ok = len(attr_stores) >= 1 and all(_is_fresh_copy_of(v, attr_sources) for _, v in attr_stores) and \
        all(g.path_avoiding(g.entry, r, avoid=[n for n, _ in attr_stores]) is None for r in rets)
    res.check(ok, 'R-COPY.complete', f.fq, "attributes: the copy's _attributes is a fresh copy of the source's *current* attribute dict, on every path",
              fail_detail='; '.join(short(v) for _, v in attr_stores) or "no store to <copy>._attributes (constructor kwargs are the construction-time attributes)",
              key='R-COPY.complete|attributes')
    # children: for child in self.get_children(...): copy.add_child(copy.deepcopy(child)) unconditionally
    loops = [n for n in g.stmt_nodes() if n.kind == 'for']
    good = False
    detail = 'no loop over self.get_children()'
    for ln in loops:
        it = unparse(ln.stmt.iter)
        if not (it.startswith('self.get_children(') or it in ('self._unordered_children',)):
            continue
        tgt = unparse(ln.stmt.target)
        body = ln.stmt.body
        adds = [s for s in body if isinstance(s, ast.Expr) and isinstance(s.value, ast.Call) and unparse(s.value.func) == f"{copy_var}.add_child"]
        if adds:
            a = adds[0].value.args[0] if adds[0].value.args else None
            good = isinstance(a, ast.Call) and (dotted(a.func) in ('copy.deepcopy',) or unparse(a.func) == f"{tgt}.__deepcopy__") \
                and a.args and unparse(a.args[0]) == tgt
            detail = short(adds[0])
            extra_kw = [k.arg for k in adds[0].value.keywords]
            if extra_kw:
                good = False
                detail += f" (extra arguments {extra_kw})"
        else:
            detail = f"loop body {short(body)} does not add a deep copy of each child"
        if good:
            res.check(all(g.dominates(ln, r) for r in rets), 'R-COPY.complete', f.fq, "the child loop runs on every path",
                      key='R-COPY.complete|children-path')
            break
    res.check(good, 'R-COPY.complete', f.fq, "children: every child is deep-copied and added to the copy", fail_detail=detail,
              key='R-COPY.complete|children')
    # purity: no write rooted at self, directly or through callees (lazy caches of derived state excluded by name)
    DERIVED = {'_traversed', '_iterated_leaves', '_reversed_path_to_root', '_et_xml_element'}
    bad = []
    for w in ef.local_writes[f]:
        if w.root == 'self' and w.field not in DERIVED:
            bad.append(w)
    res.check(not bad, 'R-COPY.pure', f.fq, "__deepcopy__ stores nothing into the source",
              fail_detail='; '.join(short(w.node, 70) for w in bad[:3]), key='R-COPY.pure|local')
    # freshness: stores into the copy must not alias the source's mutable objects
    for n in g.stmt_nodes():
        if n.kind == 'stmt' and isinstance(n.ast, ast.Assign):
            for t in n.ast.targets:
                if isinstance(t, ast.Attribute) and unparse(t.value) == copy_var:
                    v = n.ast.value
                    roots = ef.expr_roots(f, v)
                    aliased = 'self' in roots and not isinstance(v, ast.Constant)
                    res.check(not aliased, 'R-COPY.fresh', f.fq, f"{copy_var}.{t.attr} is not bound to an object of the source",
                              fail_detail=f"{short(n.ast)} shares the source's object", key=f'R-COPY.fresh|{t.attr}', line=n.line)
    # __copy__ must not exist as a shallow alias maker on XMLElement (copy.copy would share children)
    res.floor('R-COPY obligations', len(res.obligations), 6)
