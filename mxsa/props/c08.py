"""C08 - the library's own output re-parses to the same document: reader/writer agreements (R-LADDER, name inverses)."""
import ast

from ..astutil import unparse, short, walk_local, const_value, dotted
from ..srcmodel import AnalysisError
from ..rules import tables as T
from ..rules import parser as P
from . import c09


def find_ladders(ctx):
    sm = ctx.sm
    f = sm.func(None, '_et_xml_to_music_xml', T.M_PARSER)
    node_p = f.params[0]
    text_try = None
    attr_try = None
    attr_loop = None
    for st in f.node.body:
        if isinstance(st, ast.Try):
            text_try = st
        if isinstance(st, ast.For):
            attr_loop = st
            for s2 in st.body:
                if isinstance(s2, ast.Try):
                    attr_try = s2
    return f, node_p, text_try, attr_loop, attr_try


def run(ctx):
    sm, sc, res = ctx.sm, ctx.schema, ctx.res
    res.assume("value fidelity of floats (decimal spelling) is C05; re-acceptance of the document's children in file order is the matcher's behaviour (C02)")
    res.rule('R-LADDER', "for every gate family and every lexical category the writer can emit, the parser's conversion ladder reaches an accepting rung, every "
             "earlier rung fails with an exception class its handler catches, and integer-typed content ends on the int rung")
    res.rule('R-TAB.inverse', "writer and reader name maps are inverse: tag = XSD_TREE.name <-> class by the naming rule; attribute keys verbatim <-> _ -> - identity "
             "on hyphenated keys")
    f, node_p, text_try, attr_loop, attr_try = find_ladders(ctx)
    if text_try is None or attr_try is None:
        raise AnalysisError("parser: the text / attribute conversion ladders were not found (idiom not understood)")
    # variable names
    text_var = None
    for n in ast.walk(f.node):
        if isinstance(n, ast.Assign) and isinstance(n.targets[0], ast.Name) and f"{node_p}.text" in unparse(n.value):
            text_var = n.targets[0].id
    if text_var is None:
        raise AnalysisError("parser: the text variable was not found")

    # the element class: looked up from the tag at every attempt, or once before the ladder (a name bound exactly once to that lookup)
    class_exprs = P.class_lookup_exprs(f.node, node_p)

    def text_payload(st):
        if isinstance(st, ast.Assign) and isinstance(st.value, ast.Call):
            kw = {k.arg: k.value for k in st.value.keywords}
            if 'value_' in kw and unparse(st.value.func) in class_exprs:
                return kw['value_']
            if st.value.args and unparse(st.value.func) in class_exprs:
                return st.value.args[0]
        return None
    k_var, v_var = [unparse(e) for e in attr_loop.target.elts] if isinstance(attr_loop.target, ast.Tuple) else (None, None)
    out_var = None
    for n in ast.walk(text_try):
        if isinstance(n, ast.Assign) and isinstance(n.targets[0], ast.Name):
            out_var = n.targets[0].id

    def attr_payload(st):
        if isinstance(st, ast.Expr) and isinstance(st.value, ast.Call) and unparse(st.value.func) == 'setattr' and len(st.value.args) == 3:
            a = st.value.args
            if unparse(a[0]) == out_var and unparse(a[1]) == k_var:
                return a[2]
        return None
    text_ladder = P.extract_ladder(text_try, text_payload, text_var)
    attr_ladder = P.extract_ladder(attr_try, attr_payload, v_var)
    res.extra['text_ladder'] = [repr(r) for r in text_ladder]
    res.extra['attribute_ladder'] = [repr(r) for r in attr_ladder]
    for name, lad in (('text', text_ladder), ('attribute', attr_ladder)):
        for i, r in enumerate(lad):
            res.check(not r.conv.startswith('<no retry'), 'R-LADDER', f.fq, f"{name} ladder rung {i} retries the same target with another conversion",
                      fail_detail=r.conv, key=f"R-LADDER|{name}|swallow|{i}")
    # the gate's exception classes, read from the source
    cvt = sm.func('XSDSimpleType', '_check_value_type', T.M_SIMPLE)
    cv = sm.func('XSDSimpleType', '_check_value', T.M_SIMPLE)
    for fn, want in ((cvt, 'TypeError'), (cv, 'ValueError')):
        names = {unparse(n.exc.func if isinstance(n.exc, ast.Call) else n.exc) for n in ast.walk(fn.node) if isinstance(n, ast.Raise) and n.exc is not None}
        res.check(names == {want}, 'R-LADDER', fn.fq, f"every rejection of this gate is a {want}", fail_detail=str(sorted(names)), key=f"R-LADDER|gate-exc|{fn.name}")
    cck = sm.func('XSDComplexType', '_check_value', T.M_COMPLEX)
    pairs = {}
    for h in [n for n in ast.walk(cck.node) if isinstance(n, ast.ExceptHandler)]:
        rs = [unparse(r.exc.func) for r in ast.walk(h) if isinstance(r, ast.Raise) and isinstance(r.exc, ast.Call)]
        pairs[unparse(h.type)] = rs
    res.check(pairs == {'TypeError': ['TypeError'], 'ValueError': ['ValueError']}, 'R-LADDER', cck.fq,
              "the complex-type wrapper re-raises the simple-content gate's exception class unchanged", fail_detail=str(pairs), key='R-LADDER|complex-wrapper')

    # families of all element TYPEs and all attribute types
    el_classes = {c.name: c for c in T.direct_subclasses(sm, T.M_XMLELEMENT, 'XMLElement')}
    fam_cache = {}

    def fam_of_simple(cn):
        if cn not in fam_cache:
            fam_cache[cn] = P.class_family(sm, cn, sc)
        return fam_cache[cn]
    text_fams = {}
    for cn, c in el_classes.items():
        ty = unparse(c.bindings['TYPE']) if 'TYPE' in c.bindings else None
        if ty is None:
            continue
        tc = sm.get_class(ty)
        if tc is None:
            continue
        if tc.is_subclass_of('XSDComplexType'):
            scb = tc.lookup_binding('_SIMPLE_CONTENT')
            sc_name = unparse(scb[1]) if scb else 'None'
            fam = {'kind': 'NOCONTENT', 'types': [], 'forced': []} if sc_name == 'None' else fam_of_simple(sc_name)
            label = f"complex[{sc_name}]"
        else:
            fam = fam_of_simple(ty)
            label = ty
        text_fams.setdefault(_fam_key(fam), (fam, []))[1].append(cn)
    attr_fams = {}
    for label, ct in sc.all_complex_types().items():
        if label.startswith('score-timewise'):
            continue
        for a in ct.attributes():
            if not a.type:
                continue
            cn = T.xsd_class_name(a.type)
            fam = fam_of_simple(cn)
            if fam is None:
                continue
            attr_fams.setdefault(_fam_key(fam), (fam, []))[1].append(f"{label}/@{a.name}")
    n_cases = 0
    for which, ladder, fams in (('text', text_ladder, text_fams), ('attribute', attr_ladder, attr_fams)):
        for key, (fam, users) in sorted(fams.items()):
            for cat, want_kinds in _writer_categories(fam):
                n_cases += 1
                verdict, info = P.simulate(ladder, fam, cat)
                ok = verdict == 'accept' and info in want_kinds
                res.check(ok, 'R-LADDER', f.fq, f"{which} ladder x family {key} x '{cat}' literal ({len(users)} user(s), e.g. {users[0]}) -> accepted as {'/'.join(want_kinds)}",
                          fail_detail=f"{verdict}: {info}", key=f"R-LADDER|{which}|{key}|{cat}")
    res.extra['ladder_cases'] = n_cases
    res.floor('R-LADDER cases', n_cases, 12)
    # name inverses
    c09.tag_to_class(ctx)
    xe = sm.func('XMLElement', 'name', T.M_XMLELEMENT)
    res.check('return self.XSD_TREE.name' in unparse(xe.node), 'R-TAB.inverse', xe.fq, "the emitted tag is the schema name of the class's declaration",
              key='R-TAB.inverse|tag')
    rk = sm.func(None, 'replace_key_underline_with_hyphen', T.M_CORE)
    import re as _re
    res.check(_re.search(r"'-'\.join\((\w+)\.split\('_'\)\)", unparse(rk.node)) is not None, 'R-TAB.inverse', rk.fq, "_ -> - is the identity on hyphenated keys (the parser hands back emitted keys)",
              key='R-TAB.inverse|keys')
    c09.text_only_stripped(ctx)


def _fam_key(fam) -> str:
    if fam is None:
        return 'NONE'
    if fam['kind'] == 'UNION':
        return 'UNION(' + '+'.join(sorted(_fam_key(m) for m in fam['members'])) + ')'
    k = fam['kind']
    if fam.get('forced'):
        k += '+forced' + str(fam['forced'])
    if fam.get('numeric_strings') == 'ValueError':
        k += '[enum]'
    return k


def _writer_categories(fam):
    """(lexical category the writer can emit for an accepted value, acceptable Python kinds after re-reading)"""
    k = fam['kind']
    out = []
    if fam.get('forced'):
        out.append(('forced', ['str']))
    if k == 'INT':
        out.append(('intlit', ['int']))
    elif k == 'DEC':
        out += [('intlit', ['int', 'float']), ('declit', ['float'])]
    elif k == 'STR':
        out.append(('enum', ['str']))
        if fam.get('numeric_strings') != 'ValueError':
            out += [('intlit', ['str']), ('declit', ['str'])]
    elif k == 'NOCONTENT':
        out.append(('empty', ['str']))
    elif k == 'UNION':
        seen = set()
        for m in fam['members']:
            for cat, kinds in _writer_categories(m):
                if cat not in seen:
                    seen.add(cat)
                    out.append((cat, kinds))
    return out
